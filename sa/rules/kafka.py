"""Kafka wiring rules (DESIGN 4.11) - code the test-suite never executes (no broker, no confluent_kafka)."""
import ast

from ..model import AnalysisError, own_nodes, src, self_field
from .idioms import norm, local_defs

RULES = {
    'AUTOCOMMIT-OFF': "FromKafkaBatched.__init__ unconditionally sets consumer_params['enable.auto.commit'] to 'false' and nothing "
                      'else in the package writes that key',
    'COMMIT-ONLY-VIA-REF': 'consumer.commit is called only inside the closure used only as cb= of the RefCounter that travels as '
                           'metadata of the _emit of the same batch (loop=self.loop)',
    'TUPLE-LAYOUT': 'the batch tuple agrees position by position with the parameters of get_message_batch(_cudf) and with the '
                    'unpack in commit()',
    'OFFSET-ALGEBRA': 'first offset = max(cursor, low watermark); high is only the watermark or the clamp lowest + max_batch_size; '
                      'emission guarded by high > lowest; last component high - 1; cursor <- high in the same block; commit = last + 1',
    'SEED-FROM-COMMITTED': 'every path into the poll loop first sets positions[partition] from consumer.committed(...)',
    'READ-RANGE': 'get_message_batch assigns the partition at `low`, keeps messages with offset <= high, stops at offset >= high and '
                  'closes its consumer in finally',
}


def _fkb(ctx):
    M = ctx.model
    cls = M.cls('streamz.sources', 'FromKafkaBatched')
    pk = cls.methods.get('poll_kafka')
    if pk is None:
        raise AnalysisError('anchor vanished: FromKafkaBatched.poll_kafka')
    return cls, pk


def _nested(fn, name):
    for f in fn.module.all_funcs:
        if f.parent is fn and f.name == name:
            return f
    return None


def check_autocommit(ctx, R):
    M = ctx.model
    cls, pk = _fkb(ctx)
    init = cls.methods['__init__']
    con = ctx.construct(init)
    ok, line = False, init.node.lineno
    for s in init.node.body:           # top level only: unconditional
        if isinstance(s, ast.Assign) and isinstance(s.targets[0], ast.Subscript) \
                and isinstance(s.targets[0].slice, ast.Constant) and s.targets[0].slice.value == 'enable.auto.commit':
            base = src(s.targets[0].value)
            val = s.value
            if base in ('self.consumer_params', 'consumer_params') and isinstance(val, ast.Constant) and val.value in ('false', False, 'False'):
                ok, line = True, s.lineno
    R.ob('AUTOCOMMIT-OFF', con, 'enable.auto.commit', ok,
         "auto-commit is not forced off unconditionally in the constructor: offsets could be committed before processing",
         ctx.where(init, line))
    # the consumer is built from those parameters
    start = cls.methods.get('start')
    built = start is not None and any(isinstance(n, ast.Call) and src(n.func).endswith('Consumer') and n.args
                                      and src(n.args[0]) == 'self.consumer_params' for n in own_nodes(start.node))
    R.ob('AUTOCOMMIT-OFF', ctx.construct(start) if start else con, 'consumer-built-from-params', built,
         'the consumer is not constructed from self.consumer_params', ctx.where(start, start.node.lineno) if start else None)
    others = []
    for m in M.modules.values():
        for n in ast.walk(m.tree):
            if isinstance(n, ast.Subscript) and isinstance(n.ctx, ast.Store) and isinstance(n.slice, ast.Constant) \
                    and n.slice.value == 'enable.auto.commit':
                if not (m.name == 'streamz.sources' and init.node.lineno <= n.lineno <= init.node.end_lineno):
                    others.append('%s:%d' % (m.relpath, n.lineno))
    R.ob('AUTOCOMMIT-OFF', 'streamz', 'no-other-writer', not others,
         "another site writes 'enable.auto.commit': %s" % ', '.join(others), others[0] if others else None)


def check_commit_via_ref(ctx, R):
    cls, pk = _fkb(ctx)
    con = ctx.construct(pk)
    commit = _nested(pk, 'commit')
    ce = _nested(pk, 'checkpoint_emit')
    if commit is None or ce is None:
        raise AnalysisError('anchor vanished: FromKafkaBatched.poll_kafka.commit / checkpoint_emit')
    sites = []
    for f in pk.module.all_funcs:
        if f.cls is cls:
            for n in own_nodes(f.node):
                if isinstance(n, ast.Call) and isinstance(n.func, ast.Attribute) and n.func.attr == 'commit' \
                        and 'consumer' in src(n.func.value):
                    sites.append((f, n))
    ok = bool(sites) and all(f is commit for f, _ in sites)
    R.ob('COMMIT-ONLY-VIA-REF', con, 'commit-sites', ok,
         'consumer.commit is called outside the checkpoint closure: %s' % ', '.join('%s:%d' % (f.qual, n.lineno) for f, n in sites if f is not commit),
         ctx.where(pk, sites[0][1].lineno) if sites else ctx.where(pk, pk.node.lineno))
    # references to `commit`: only as the body of a lambda/closure given as cb= to RefCounter(...) in checkpoint_emit
    refs = []
    for f in [pk, ce] + [x for x in pk.module.all_funcs if x.parent in (pk, ce)]:
        for n in ast.walk(f.node) if f is pk else own_nodes(f.node):
            if isinstance(n, ast.Name) and n.id == 'commit' and isinstance(n.ctx, ast.Load):
                refs.append(n)
    refs = list({id(r): r for r in refs}.values())
    rc_calls = [n for n in own_nodes(ce.node) if isinstance(n, ast.Call) and src(n.func) in ('RefCounter', 'core.RefCounter')]
    okref = len(rc_calls) == 1
    detail = ''
    if okref:
        rc = rc_calls[0]
        cb = next((k.value for k in rc.keywords if k.arg == 'cb'), None)
        loop = next((k.value for k in rc.keywords if k.arg == 'loop'), None)
        in_cb = cb is not None and all(any(r is x for x in ast.walk(cb)) for r in refs) and refs
        part_param = ce.params()[0] if ce.params() else None
        cb_arg_ok = cb is not None and any(isinstance(c, ast.Call) and src(c.func) == 'commit' and c.args
                                           and src(c.args[0]) == part_param for c in ast.walk(cb))
        if not in_cb:
            okref, detail = False, 'commit is referenced outside the cb= of the RefCounter'
        elif not cb_arg_ok:
            okref, detail = False, 'the callback does not commit the batch it was created for'
        elif loop is None or src(loop) != 'self.loop':
            okref, detail = False, 'the RefCounter is not bound to self.loop'
        else:
            # the counter travels as metadata of the emission of the same batch
            ref_name = next((t.id for s in own_nodes(ce.node) if isinstance(s, ast.Assign) and s.value is rc
                             for t in s.targets if isinstance(t, ast.Name)), None)
            ems = [n for n in own_nodes(ce.node) if isinstance(n, ast.Call) and isinstance(n.func, ast.Attribute) and n.func.attr == '_emit']
            okem = False
            for e in ems:
                md = next((k.value for k in e.keywords if k.arg == 'metadata'), e.args[1] if len(e.args) > 1 else None)
                if e.args and src(e.args[0]) == part_param and md is not None and isinstance(md, ast.List) and len(md.elts) == 1 \
                        and isinstance(md.elts[0], ast.Dict) and [src(k) for k in md.elts[0].keys] == ["'ref'"] \
                        and src(md.elts[0].values[0]) == ref_name:
                    okem = True
            if not okem:
                okref, detail = False, "the batch is not emitted with metadata=[{'ref': <that counter>}]"
            awaited = any(isinstance(n, (ast.Yield, ast.Await)) and any(x in ems for x in ast.walk(n)) for n in own_nodes(ce.node))
            if okem and not awaited:
                okref, detail = False, 'checkpoint_emit does not await the emission'
    else:
        detail = 'expected exactly one RefCounter(...) in checkpoint_emit, found %d' % len(rc_calls)
    R.ob('COMMIT-ONLY-VIA-REF', ctx.construct(ce), 'refcounter', okref, detail, ctx.where(ce, ce.node.lineno))
    # every batch handed out goes through checkpoint_emit
    loops = [l for l in own_nodes(pk.node) if isinstance(l, ast.For) and src(l.iter) == 'out']
    okloop = False
    for l in loops:
        var = l.target.id if isinstance(l.target, ast.Name) else None
        for c in ast.walk(l):
            if isinstance(c, ast.Call) and isinstance(c.func, ast.Attribute) and c.func.attr in ('add_callback',) \
                    and [src(a) for a in c.args] == ['checkpoint_emit', var]:
                okloop = True
            if isinstance(c, ast.Call) and src(c.func) == 'checkpoint_emit' and [src(a) for a in c.args] == [var]:
                okloop = True
    R.ob('COMMIT-ONLY-VIA-REF', con, 'every-batch-checkpointed', okloop,
         'the batches in `out` are not each handed to checkpoint_emit', ctx.where(pk, loops[0].lineno if loops else pk.node.lineno))


def _append_tuple(pk):
    for n in own_nodes(pk.node):
        if isinstance(n, ast.Call) and isinstance(n.func, ast.Attribute) and n.func.attr == 'append' \
                and src(n.func.value) == 'out' and n.args and isinstance(n.args[0], ast.Tuple):
            return n
    return None


def kafka_names(pk):
    """discover the local names of the poll loop by their definitions (alpha-insensitive):
    low/high = targets of the get_watermark_offsets unpack, part = loop variable of the enclosing for,
    lowest = the name in the batch tuple's 5th position"""
    app = _append_tuple(pk)
    if app is None:
        raise AnalysisError('FromKafkaBatched.poll_kafka: the batch tuple appended to `out` was not found (unrecognised spelling)')
    wm = None
    for n in own_nodes(pk.node):
        if isinstance(n, ast.Assign) and isinstance(n.targets[0], (ast.Tuple, ast.List)) and isinstance(n.value, ast.Call) \
                and isinstance(n.value.func, ast.Attribute) and n.value.func.attr == 'get_watermark_offsets' \
                and len(n.targets[0].elts) == 2 and all(isinstance(e, ast.Name) for e in n.targets[0].elts):
            wm = n
    if wm is None:
        raise AnalysisError('FromKafkaBatched.poll_kafka: `low, high = consumer.get_watermark_offsets(...)` not found')
    low, high = wm.targets[0].elts[0].id, wm.targets[0].elts[1].id
    loop = next((l for l in own_nodes(pk.node) if isinstance(l, ast.For) and any(x is wm for x in ast.walk(l))), None)
    part = loop.target.id if loop is not None and isinstance(loop.target, ast.Name) else None
    elts = app.args[0].elts
    lowest = elts[4].id if len(elts) == 6 and isinstance(elts[4], ast.Name) else None
    return {'app': app, 'wm': wm, 'low': low, 'high': high, 'part': part, 'lowest': lowest, 'loop': loop}


def check_tuple_layout(ctx, R):
    M = ctx.model
    cls, pk = _fkb(ctx)
    con = ctx.construct(pk)
    K = kafka_names(pk)
    app = K['app']
    elts = [src(e) for e in app.args[0].elts]
    gmb = M.function('streamz.sources', 'get_message_batch')
    params = gmb.params()
    role = {'self.consumer_params': 'kafka_params', 'self.topic': 'topic', K['part']: 'partition', 'self.keys': 'keys',
            K['lowest']: 'low'}
    got = []
    for e in elts:
        if e in role:
            got.append(role[e])
        elif e.replace(' ', '') in ('%s-1' % K['high'],):
            got.append('high')
        else:
            got.append('?' + e)
    ok = got == params[:len(got)] and len(got) == 6
    R.ob('TUPLE-LAYOUT', con, 'tuple-vs-get_message_batch', ok,
         'batch tuple roles %s do not match get_message_batch%s' % (got, tuple(params)), ctx.where(pk, app.lineno))
    cudf = M.function('streamz.sources', 'get_message_batch_cudf', required=False)
    if cudf is not None:
        R.ob('TUPLE-LAYOUT', ctx.construct(cudf), 'same-signature', cudf.params()[:6] == params[:6],
             'get_message_batch_cudf%s differs from get_message_batch%s' % (tuple(cudf.params()), tuple(params)),
             ctx.where(cudf, cudf.node.lineno))
    # starmap(get_message_batch) downstream of the source
    fkb = M.function('streamz.sources', 'from_kafka_batched')
    sm = [n for n in own_nodes(fkb.node) if isinstance(n, ast.Call) and isinstance(n.func, ast.Attribute) and n.func.attr == 'starmap']
    oksm = bool(sm) and all(src(n.args[0]) in ('get_message_batch', 'get_message_batch_cudf') for n in sm if n.args)
    R.ob('TUPLE-LAYOUT', ctx.construct(fkb), 'starmap', oksm, 'the batch tuples are not unpacked into get_message_batch via starmap',
         ctx.where(fkb, sm[0].lineno if sm else fkb.node.lineno))
    # commit's unpack
    commit = _nested(pk, 'commit')
    un = [n for n in own_nodes(commit.node) if isinstance(n, ast.Assign) and isinstance(n.targets[0], (ast.Tuple, ast.List))]
    okc, detail = False, 'no unpack of the batch tuple in commit()'
    if un:
        t = un[0]
        p = commit.params()[0]
        if src(t.value).replace(' ', '') == '%s[1:]' % p and len(t.targets[0].elts) == 5:
            names = [src(e) for e in t.targets[0].elts]
            tp = [n for n in own_nodes(commit.node) if isinstance(n, ast.Call) and src(n.func).endswith('TopicPartition')]
            if tp and len(tp[0].args) == 3:
                a = [src(x).replace(' ', '') for x in tp[0].args]
                okc = a[0] == names[0] and a[1] == names[1] and a[2] == names[4] + '+1'
                detail = 'commit builds TopicPartition(%s) from unpack %s; expected (topic, partition, last offset + 1)' % (', '.join(a), names)
        else:
            detail = 'commit unpacks %s into %d names' % (src(t.value), len(t.targets[0].elts))
    R.ob('TUPLE-LAYOUT', ctx.construct(commit), 'unpack', okc, detail, ctx.where(commit, commit.node.lineno))
    cm = [n for n in own_nodes(commit.node) if isinstance(n, ast.Call) and isinstance(n.func, ast.Attribute) and n.func.attr == 'commit']
    okk = bool(cm) and any(k.arg == 'offsets' for k in cm[0].keywords)
    R.ob('TUPLE-LAYOUT', ctx.construct(commit), 'commit-offsets', okk, 'commit() is not given offsets=[...]',
         ctx.where(commit, cm[0].lineno if cm else commit.node.lineno))


def check_offset_algebra(ctx, R):
    cls, pk = _fkb(ctx)
    con = ctx.construct(pk)
    K = kafka_names(pk)
    app, LOW, HIGH, PART, LOWEST = K['app'], K['low'], K['high'], K['part'], K['lowest']
    defs = local_defs(pk.node)
    if LOWEST is None or PART is None:
        raise AnalysisError('FromKafkaBatched.poll_kafka: cannot identify the first-offset / partition variables (unrecognised spelling)')
    cursor = 'self.positions[%s]' % PART

    def N(node):
        """normal form with the discovered names replaced by roles"""
        d = {k: v for k, v in defs.items() if k not in (LOW, HIGH, PART, LOWEST) and len(v) == 1 and v[0] is not None
             and isinstance(v[0], ast.Subscript) and src(v[0]) == cursor}
        t = norm(node, d).replace(' ', '')
        import re
        for name, role_ in ((LOWEST, 'LOWEST'), (HIGH, 'HIGH'), (LOW, 'LOW')):
            t = re.sub(r'(?<![\w.])' + re.escape(name) + r'(?![\w])', role_, t)
        return t.replace(cursor.replace(' ', ''), 'CURSOR').replace('self.max_batch_size', 'MAX')

    lows = defs.get(LOWEST, [])
    okl = len(lows) == 1 and lows[0] is not None and N(lows[0]) in ('max(CURSOR,LOW)', 'max(LOW,CURSOR)')
    R.ob('OFFSET-ALGEBRA', con, 'lowest', okl,
         'the first offset of a batch is not max(cursor, low watermark): %s' % [src(v) for v in lows if v is not None],
         ctx.where(pk, lows[0].lineno if lows and lows[0] is not None else pk.node.lineno))
    guard = None
    for n in own_nodes(pk.node):
        if isinstance(n, ast.If) and any(x is app for s_ in n.body for x in ast.walk(s_)):
            guard = n
    okg = guard is not None and N(guard.test) == 'LOWEST<HIGH'
    R.ob('OFFSET-ALGEBRA', con, 'guard', okg,
         'a batch is emitted under %s; expected the strict high > lowest (no empty / negative ranges)' % (src(guard.test) if guard else None),
         ctx.where(pk, guard.lineno if guard else app.lineno))
    adv = [s_ for s_ in (guard.body if guard else []) if isinstance(s_, ast.Assign) and src(s_.targets[0]) == cursor]
    oka = len(adv) == 1 and src(adv[0].value) == HIGH
    R.ob('OFFSET-ALGEBRA', con, 'cursor-advance', oka,
         'the cursor is not advanced to the exclusive end in the block that hands the range out (ranges would overlap or leave gaps)',
         ctx.where(pk, adv[0].lineno if adv else app.lineno))
    last = N(app.args[0].elts[-1]) if app.args[0].elts else ''
    first = N(app.args[0].elts[-2]) if len(app.args[0].elts) > 1 else ''
    R.ob('OFFSET-ALGEBRA', con, 'range', last == '(HIGH-1)' and first == 'LOWEST',
         'the range handed out is [%s, %s]; expected [lowest, high - 1]' % (first, last), ctx.where(pk, app.lineno))
    high_defs = []
    for n in own_nodes(pk.node):
        if isinstance(n, ast.Assign):
            for t in n.targets:
                for e in ([t] if not isinstance(t, (ast.Tuple, ast.List)) else t.elts):
                    if isinstance(e, ast.Name) and e.id == HIGH:
                        high_defs.append(n)
    okh, detail = True, ''
    clamp = 0
    for n in high_defs:
        if n is K['wm']:
            continue
        if isinstance(n.targets[0], (ast.Tuple, ast.List)):
            okh, detail = False, 'high is unpacked from %s' % src(n.value)
            continue
        v = N(n.value)
        if v in ('(LOWEST+MAX)', '(MAX+LOWEST)'):
            g = None
            for x in own_nodes(pk.node):
                if isinstance(x, ast.If) and any(y is n for y in x.body):
                    g = x
            gt = N(g.test) if g is not None else None
            if gt not in ('(LOWEST+MAX)<HIGH', '(MAX+LOWEST)<HIGH'):
                okh, detail = False, 'the clamp is applied under %s' % (src(g.test) if g else 'no guard')
            clamp += 1
        elif v in ('min(HIGH,(LOWEST+MAX))', 'min((LOWEST+MAX),HIGH)', 'min((MAX+LOWEST),HIGH)', 'min(HIGH,(MAX+LOWEST))'):
            clamp += 1
        else:
            okh, detail = False, 'high is re-defined as %s' % src(n.value)
    if clamp != 1 and okh:
        okh, detail = False, 'expected exactly one clamp of high to lowest + max_batch_size, found %d' % clamp
    R.ob('OFFSET-ALGEBRA', con, 'high', okh, detail, ctx.where(pk, high_defs[0].lineno if high_defs else pk.node.lineno))
    if guard is not None and lows and lows[0] is not None:
        cl = [n.lineno for n in high_defs if n is not K['wm']]
        oko = lows[0].lineno < min(cl or [guard.lineno]) <= guard.lineno
        R.ob('OFFSET-ALGEBRA', con, 'order', oko, 'lowest / clamp / guard are not evaluated in that order', ctx.where(pk, guard.lineno))


def check_seed(ctx, R):
    cls, pk = _fkb(ctx)
    con = ctx.construct(pk)
    poll = None
    for n in pk.node.body:
        if isinstance(n, ast.While) and 'self.stopped' in src(n.test):
            poll = n
    if poll is None:
        raise AnalysisError('FromKafkaBatched.poll_kafka: poll loop `while not self.stopped` not found at top level')
    seed = None
    for n in pk.node.body:
        if n.lineno >= poll.lineno:
            break
        for x in ast.walk(n):
            if isinstance(x, ast.Assign) and src(x.targets[0]).replace(' ', '') == 'self.positions[tp.partition]' \
                    and src(x.value) == 'tp.offset':
                seed = (n, x)
    ok, detail = seed is not None, 'positions are not seeded from consumer.committed() before the poll loop'
    if seed is not None:
        outer, asg = seed
        loop = next((l for l in ast.walk(outer) if isinstance(l, ast.For) and any(y is asg for y in ast.walk(l))), None)
        it = src(loop.iter) if loop is not None else None
        cdef = [x for x in ast.walk(outer) if isinstance(x, ast.Assign) and isinstance(x.value, ast.Call)
                and isinstance(x.value.func, ast.Attribute) and x.value.func.attr == 'committed'
                and any(isinstance(t, ast.Name) and t.id == it for t in x.targets)]
        if not cdef:
            ok, detail = False, 'the seeding loop does not iterate the result of consumer.committed(...)'
        elif isinstance(outer, ast.While):
            # retry loop: the only exits are breaks after the seeding loop
            brs = [b for b in ast.walk(outer) if isinstance(b, ast.Break)]
            if not brs or any(b.lineno < asg.lineno for b in brs):
                ok, detail = False, 'the retry loop can be left before positions are seeded'
            if not (isinstance(outer.test, ast.Constant) and outer.test.value is True):
                ok, detail = False, 'the retry loop may be skipped'
    R.ob('SEED-FROM-COMMITTED', con, 'positions', ok, detail, ctx.where(pk, seed[1].lineno if seed else poll.lineno))
    # no path re-initialises positions after seeding (other than appending for new partitions / the latest reset)
    resets = [n for n in own_nodes(pk.node) if isinstance(n, ast.Assign) and src(n.targets[0]) == 'self.positions'
              and n.lineno > (seed[1].lineno if seed else 0)]
    R.ob('SEED-FROM-COMMITTED', con, 'no-reset', not resets, 'self.positions is re-initialised after being seeded',
         ctx.where(pk, resets[0].lineno) if resets else None)


def check_read_range(ctx, R):
    M = ctx.model
    fn = M.function('streamz.sources', 'get_message_batch')
    con = ctx.construct(fn)
    tp = [n for n in own_nodes(fn.node) if isinstance(n, ast.Call) and src(n.func).endswith('TopicPartition')]
    ok = bool(tp) and [src(a) for a in tp[0].args] == ['topic', 'partition', 'low']
    R.ob('READ-RANGE', con, 'assign-at-low', ok, 'the consumer is not assigned at (topic, partition, low)', ctx.where(fn, tp[0].lineno if tp else fn.node.lineno))
    keep = stop = False
    for n in own_nodes(fn.node):
        if isinstance(n, ast.If):
            t = norm(n.test, {}).replace(' ', '')
            if t in ('msg.offset()<=high',) and any(isinstance(x, ast.Call) and isinstance(x.func, ast.Attribute) and x.func.attr == 'append' for x in ast.walk(n)):
                keep = True
            if t in ('high<=msg.offset()',) and any(isinstance(x, ast.Break) for x in n.body):
                stop = True
    R.ob('READ-RANGE', con, 'keep-upto-high', keep, 'messages are not kept exactly when offset <= high', ctx.where(fn, fn.node.lineno))
    R.ob('READ-RANGE', con, 'stop-at-high', stop, 'the read loop does not stop once offset >= high', ctx.where(fn, fn.node.lineno))
    fin = [n for n in own_nodes(fn.node) if isinstance(n, ast.Try) and any(
        isinstance(x, ast.Call) and src(x.func) == 'consumer.close' for s in n.finalbody for x in ast.walk(s))]
    R.ob('READ-RANGE', con, 'close-in-finally', bool(fin), 'the per-batch consumer is not closed in a finally clause',
         ctx.where(fn, fn.node.lineno))
    rets = [n for n in own_nodes(fn.node) if isinstance(n, ast.Return)]
    R.ob('READ-RANGE', con, 'returns-out', bool(rets) and all(src(r.value) == 'out' for r in rets), 'the collected messages are not what is returned',
         ctx.where(fn, fn.node.lineno))
