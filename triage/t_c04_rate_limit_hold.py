"""C04 witness: rate_limit keeps an element waiting without holding its reference counter.
Before the fix the completion callback of element 2 fires while 2 is still sleeping in the node."""
import asyncio, logging
logging.disable(logging.CRITICAL)
from streamz import Stream
from streamz.core import RefCounter
from tornado.ioloop import IOLoop


async def main():
    src = Stream(asynchronous=True)
    got, fired = [], []
    src.rate_limit(0.05).sink(got.append)
    r1 = RefCounter(cb=lambda: fired.append(('cb1', list(got))), loop=IOLoop.current())
    r2 = RefCounter(cb=lambda: fired.append(('cb2', list(got))), loop=IOLoop.current())
    src.emit(1, metadata=[{'ref': r1}])
    src.emit(2, metadata=[{'ref': r2}])
    await asyncio.sleep(0.01)
    early = [f for f in fired if f[0] == 'cb2' and 2 not in f[1]]
    print('after 10ms: delivered', got, 'callbacks', fired)
    await asyncio.sleep(0.2)
    print('end: delivered', got, 'callbacks', fired, 'counts', r1.count, r2.count)
    assert not early, 'completion callback of element 2 fired before 2 was delivered'
    assert r1.count == 0 and r2.count == 0 and len(fired) == 2
    print('OK')

asyncio.run(main())
