"""C13 rate_limit spaces emissions by at least the interval and keeps order; delay preserves order and count"""
from ..rules import delivery, idioms
from .common import declare

RULES = ['TIMEDELTA-TOTAL', 'RESERVE-ALGEBRA', 'ATOMIC-RMW', 'EMIT-SIG', 'PASS-VALUE', 'SINGLE-CONSUMER', 'SERIAL-DRAIN', 'FIFO-END', 'EAGER-UPDATE']
FLOORS = {'RESERVE-ALGEBRA': 4, 'ATOMIC-RMW': 1, 'EMIT-SIG': 3, 'PASS-VALUE': 2, 'SINGLE-CONSUMER': 1, 'SERIAL-DRAIN': 1,
          'FIFO-END': 1}

META = {
    'level': "Static analysis of the two mechanisms: rate_limit reserves its slot from a single read of the previous reservation, "
             "before its first suspension, as max(now, previous) + interval, sleeps iff now < previous for previous - now and emits "
             "exactly once (RESERVE-ALGEBRA on value-flow normal forms, ATOMIC-RMW, EMIT-SIG, PASS-VALUE); delay has one serial FIFO "
             "consumer (SINGLE-CONSUMER, SERIAL-DRAIN, FIFO-END). Lemma: with those facts scheduled pass times are >= interval "
             "apart and an idle line passes at once. Measured spacing on a real clock and loop jitter are not decided.",
    'note': "Trusted: the lemma stated above; time() is monotone enough; suspension points = yield/await. An unrecognised "
            "spelling of the reservation algebra is an ANALYSIS-ERROR/violation of the normal form, stated in the report.",
    'technique': "static analysis: value-flow normal forms of the reservation idiom + event paths (RESERVE-ALGEBRA, "
                 "ATOMIC-RMW, EMIT-SIG, SINGLE-CONSUMER, SERIAL-DRAIN, FIFO-END)",
}


def run(ctx, R):
    R.explanation = 'Reservation algebra of rate_limit.update on normal forms and paths; queue discipline of delay.'
    R.not_decided = ['measured spacing on a real clock; event-loop jitter']
    declare(R, {**delivery.RULES, **idioms.RULES}, RULES, FLOORS)
    M = ctx.model
    rl, dl = M.cls('streamz.core', 'rate_limit'), M.cls('streamz.core', 'delay')
    R.run(idioms.check_reserve_algebra, ctx, R)
    R.run(delivery.check_timedelta_total, ctx, R)
    R.run(delivery.check_atomic_rmw, ctx, R, [(rl, f) for f in rl.methods.values()])
    R.run(delivery.check_emit_sig, ctx, R, [rl, dl])
    R.run(delivery.check_pass_value, ctx, R, [rl, dl])
    R.run(delivery.check_single_consumer, ctx, R, [dl])
    R.run(delivery.check_serial_drain, ctx, R, [dl])
    R.run(delivery.check_fifo_end, ctx, R, [dl])
    R.run(delivery.check_eager_update, ctx, R, [rl, dl])


META['level'] += ' Durations are converted with total_seconds() (TIMEDELTA-TOTAL).'
