"""debug helper: run one check on one benign/ patch (in memory) and print the whole report
usage: python3 tools/dbg_benign.py <patch-id> <prop> [grep-substring]"""
import os, sys
sys.path.insert(0, os.path.dirname(os.path.dirname(os.path.abspath(__file__))))
from selftest.benign_patches import overrides_for
from sa.main import run_check
pid, prop = sys.argv[1], sys.argv[2]
ov = overrides_for({pid})[pid]
code, R = run_check(prop, 'quick', overrides=ov, quiet=False, write=False)
print('exit', code)
for o in R.violations:
    print('VIOL', o.rule, o.construct, o.token, '|', getattr(o, 'detail', ''), '|', getattr(o, 'where', ''))
    t = getattr(o, 'trace', None)
    if t:
        print('   trace:', t)
