"""C17 file-based sources deliver every record exactly once however the data arrives"""
from ..rules import idioms, flow, lifecycle, delivery
from .common import declare

RULES = ['SPLIT-CARRY', 'SEEN-SET', 'PROPAGATE', 'STOP-CHECK', 'ATOMIC-RMW', 'SINGLE-FLIGHT']
FLOORS = {'SPLIT-CARRY': 4, 'SEEN-SET': 3, 'PROPAGATE': 1, 'STOP-CHECK': 1, 'ATOMIC-RMW': 1, 'SINGLE-FLIGHT': 1}

META = {
    'level': "Static analysis of from_textfile._run and filenames._run as 'idiom + one library lemma': split is applied to carry ++ "
             "new data, the carry becomes the last piece, every other piece is emitted exactly once in list order with the delimiter "
             "re-appended, the carry is written before the first suspension and nowhere else (lemma d.join(s.split(d)) == s => every "
             "terminated record exactly once, in order, unmodified, for every chunking); filenames iterates sorted(glob - seen) and "
             "records before awaiting. Plus: each emission awaited before the next (PROPAGATE), one polling loop at a time "
             "(SINGLE-FLIGHT of Source.start) re-reading the stop flag (STOP-CHECK). OS read/seek/decoding semantics and glob are not decided.",
    'note': "Trusted: the str.split/join lemma; file.read() returns the data appended since the previous read; glob semantics.",
    'technique': "static analysis: idiom recognition on value-flow normal forms + event paths (SPLIT-CARRY, SEEN-SET, PROPAGATE, "
                 "STOP-CHECK, ATOMIC-RMW, SINGLE-FLIGHT)",
}


def run(ctx, R):
    R.explanation = 'Idiom facts of from_textfile._run / filenames._run plus the polling-loop discipline of Source.'
    R.not_decided = ['OS-level read/seek semantics (from_end, multi-byte characters split across reads)', 'glob semantics']
    declare(R, {**idioms.RULES, **flow.RULES, **lifecycle.RULES, **delivery.RULES}, RULES, FLOORS)
    M = ctx.model
    tf, fl, so = M.cls('streamz.sources', 'from_textfile'), M.cls('streamz.sources', 'filenames'), M.cls('streamz.sources', 'Source')
    R.run(idioms.check_split_carry, ctx, R)
    R.run(idioms.check_seen_set, ctx, R)
    R.run(flow.check_propagate, ctx, R, modules=('streamz.sources',), note_modules=())
    for k in [k for k in R.obs if k[0] == 'PROPAGATE' and not any(s in k[1] for s in ('from_textfile', 'filenames', '.Source.'))]:
        del R.obs[k]
    R.run(lifecycle.check_stop_check, ctx, R, [(so, so.methods['run'])])
    R.run(delivery.check_atomic_rmw, ctx, R, [(tf, tf.methods['_run']), (fl, fl.methods['_run'])])
    R.run(lifecycle.check_single_flight, ctx, R, [so])
